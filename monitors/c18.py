"""C18 — decoding an encoded performance reproduces the performance; matched-note table; time maps.

Post-condition hooks on the real functions of partitura.musicanalysis.performance_codec:

  to_matched_score               the table pairs exactly the matches present on both sides, ordered by (score onset,
                                 pitch), every row carries its own score note and its own performed note
  get_matched_notes              exactly the index pairs of those matches
  get_time_maps_from_alignment   both maps pass through (score onset, mean performed onset of the matched notes
                                 written there) and stay between neighbouring knots
  encode_performance             parameter columns of the normalisation present, one row per matched note; the call
                                 is registered (parameters -> performance) for the decoder's post-condition
  decode_performance             for parameters that came out of encode_performance: performed onset up to one
                                 common shift, performed duration, velocity for every matched note

The hooks compute their expectation from the arguments of the call (so they also judge calls made by other
workloads); the driver generates scores, performances and alignments and additionally compares what the hooks read
from the performance with what the generator wrote.
"""
import collections
import inspect
import traceback

import numpy as np

from vmon import core
from vmon.refmodels import c18_align as R

PROP = "C18"
RULE = ("seeded single-part scores from workloads.gen_score (chords, 1-4 voices, grace notes, pickups, ties, tuplets, rests, "
        "meter changes; optionally unison doublings in an extra voice and grace notes repeating the main note's pitch) with a "
        "generated note-for-note performance (tempo modes rubato / independent log-uniform IOIs 6 ms..2.5 s / exact constant "
        "tempo; chord asynchrony; durations 0.08..3 s; velocities 1..127) and a shuffled alignment, optionally with insertions, "
        "deletions, ornaments and matches whose ids are absent on one side; every case runs get_matched_notes, "
        "to_matched_score, both time maps (remove_ornaments on/off) and encode->decode for all 5 normalisations x 2 tempo-curve "
        "methods with Part/Score/note-array and PerformedPart/Performance/note-array arguments; thorough adds the match-file "
        "fixtures of tests/data. A case is non-trivial when >= 10 notes are matched and >= 1 matched score onset carries a "
        "chord; distinct by the digest of (score notes, performed notes, alignment)")
ASSUMPTIONS = ["score-side and performance-side note arrays (Part.note_array / PerformedPart.note_array) are the trusted "
               "description of the arguments inside the hooks (decided by C05 / C14); the driver cross-checks the performed "
               "times against what the generator wrote",
               "tolerance 2e-5*max(1, largest performed time) on seconds and 2e-5*max(1, largest |score onset|) on beats "
               "(parameters and note arrays are float32); rows of the matched table 2e-6 relative",
               "beat_period_standardized: the decoder's beat period standardized*std+mean is float32, so its rounding is relative to "
               "|mean|+|standardized*std|; that amount (2.5e-7 relative, propagated to onsets and durations) is added to the "
               "tolerance for this normalisation only",
               "alignments without a single match on both sides are outside the domain (only get_matched_notes is run on them)",
               "performed durations down to 5 ms are generated and judged",
               "order among notes of equal (score onset, pitch) in the matched table is not judged; row order of "
               "get_matched_notes is not judged (the statement orders 'the matched-note table')",
               "a score onset at which only grace notes are matched contributes no knot when remove_ornaments=True"]
MIN_HOOKS = {"to_matched_score": {"quick": 3000, "thorough": 30000}, "get_matched_notes": {"quick": 600, "thorough": 6000},
             "get_time_maps_from_alignment": {"quick": 400, "thorough": 4000},
             "encode_performance": {"quick": 2500, "thorough": 25000}, "decode_performance": {"quick": 2500, "thorough": 25000}}
MIN_NONTRIVIAL = {"quick": 120, "thorough": 1500}
ITEM_TIMEOUT_S = 120

NORMS = list(R.PARAM_NAMES)
METHODS = ["average", "derivative"]
F4REL = 2e-6

_hooks = []
_REG = collections.OrderedDict()      # id(parameter array) -> record written by the encode hook
_COLLECT = None                        # list while the driver runs the configurations of one case
_WITNESS = None                        # compact description of the driver's current case
_CFG = None


def tol_for(scale):
    return 2e-5 * max(1.0, scale)


def emit(key, what, witness=None, summarise=False):
    ctx = core.CURRENT
    w = {"case": _WITNESS, "detail": witness, "config": list(_CFG) if _CFG else None}
    if summarise and _COLLECT is not None:
        _COLLECT.append((key, what, w, _CFG))
    else:
        ctx.violation(key, what, w)


def safe(fn):
    """A failure of the monitor's own code inside a hook is a MONITOR-ERROR, never a raise of the library."""
    def post(ret, exc, token, a, k):
        if exc is not None:
            return
        try:
            fn(ret, token, a, k)
        except Exception:
            c = core.CURRENT
            c.monitor_errors.append({"item": c.item, "traceback": "in hook " + fn.__name__ + "\n" + traceback.format_exc()[-2000:]})
    return post


def bound(fn, a, k, alias=()):
    k = dict(k)
    for old, new in alias:
        if old in k:
            k[new] = k.pop(old)
    ba = inspect.signature(inspect.unwrap(fn)).bind(*a, **k)
    ba.apply_defaults()
    return ba.arguments


def score_na(x):
    from partitura.utils.music import ensure_notearray
    return x if isinstance(x, np.ndarray) else ensure_notearray(x)


def arrays_witness(s_na, p_na, alignment, limit=30):
    return {"score_rows": [[str(r["id"]), float(r["onset_beat"]), float(r["duration_beat"]), int(r["pitch"])] for r in s_na[:limit]],
            "performed_rows": [[str(r["id"]), float(r["onset_sec"]), float(r["duration_sec"]), int(r["velocity"])] for r in p_na[:limit]],
            "alignment": [[a.get("label"), str(a.get("score_id")), str(a.get("performance_id"))] for a in alignment[:2 * limit]]}


def f4eq(x, e):
    return abs(float(x) - float(e)) <= F4REL * max(1.0, abs(float(e))) + 1e-7


def onset_key(s_na, i):
    on = int(s_na["onset_div"][i]) if "onset_div" in s_na.dtype.names else float(s_na["onset_beat"][i])
    return (on, int(s_na["pitch"][i]))


# ------------------------------------------------------------------ table
def check_table(ctx, s_na, p_na, alignment, m_score, snote_ids, label):
    pairs, unique, s_index, p_index = R.expected_pairs(s_na["id"], p_na["id"], alignment)
    if not unique:
        ctx.ambiguous()
        ctx.extra["table_ids_not_unique"] += 1
        return None
    ctx.check()
    w = None
    exp = dict(pairs)
    got_ids = [str(x) for x in snote_ids]
    if len(m_score) != len(got_ids):
        emit("table-rows-and-ids-differ-in-length", f"{label}: {len(m_score)} rows, {len(got_ids)} ids", w)
        return pairs
    if collections.Counter(got_ids) != collections.Counter(list(exp)):
        missing = sorted(set(exp) - set(got_ids))[:5]
        extra = sorted(set(got_ids) - set(exp))[:5]
        dup = [s for s, c in collections.Counter(got_ids).items() if c > 1][:5]
        key = "table-misses-a-match" if missing else ("table-lists-a-note-twice" if dup else "table-contains-a-note-that-is-not-a-match-on-both-sides")
        emit(key, f"{label}: missing {missing} unexpected {extra} repeated {dup}",
             arrays_witness(s_na, p_na, alignment) if _WITNESS is None else {"missing": missing, "unexpected": extra, "repeated": dup})
        return pairs
    keys = [onset_key(s_na, s_index[s][0]) for s in got_ids]
    ctx.check()
    if not R.order_ok(keys):
        bad = next(i for i in range(len(keys) - 1) if keys[i] > keys[i + 1])
        emit("table-not-ordered-by-score-onset-then-pitch", f"{label}: rows {bad},{bad + 1} have (onset, pitch) {keys[bad]} > {keys[bad + 1]}",
             {"ids": got_ids[max(0, bad - 1):bad + 3], "keys": [list(x) for x in keys[max(0, bad - 1):bad + 3]]})
    if len(set(keys)) < len(keys):
        ctx.ambiguous()                       # order among equal (onset, pitch) is open
        ctx.state("table:equal-keys")
    # every row carries its own score note and the performed note matched to it
    for kk, sid in enumerate(got_ids):
        si, pi = s_index[sid][0], p_index[exp[sid]][0]
        row = m_score[kk]
        ctx.check()
        want_s = (float(s_na["onset_beat"][si]), float(s_na["duration_beat"][si]), int(s_na["pitch"][si]))
        # (the duration is the score's own single-precision value; it used to be (onset + duration) - onset in float32,
        # which loses digits late in a long piece - repaired, the allowance that scaled with the onset is gone)
        if not (f4eq(row["onset"], want_s[0]) and f4eq(row["duration"], want_s[1]) and int(row["pitch"]) == want_s[2]):
            emit("table-row-has-another-notes-score-data", f"{label}: row {kk} ({sid}) has score data "
                 f"{(float(row['onset']), float(row['duration']), int(row['pitch']))}, the note has {want_s}", {"row": kk, "score_id": sid})
            break
        pdur = float(p_na["duration_sec"][pi])
        want_p = (float(p_na["onset_sec"][pi]), pdur, int(p_na["velocity"][pi]))
        dur_ok = f4eq(row["p_duration"], pdur) if pdur >= R.FLOOR else True
        if pdur < R.FLOOR:
            ctx.ambiguous()
        if not (f4eq(row["p_onset"], want_p[0]) and dur_ok and int(row["velocity"]) == want_p[2]):
            emit("table-row-paired-with-the-wrong-performed-note", f"{label}: row {kk} ({sid} ~ {exp[sid]}) has performed data "
                 f"{(float(row['p_onset']), float(row['p_duration']), int(row['velocity']))}, the matched note has {want_p}",
                 {"row": kk, "score_id": sid, "performance_id": exp[sid]})
            break
    return pairs


def post_tms(ret, token, a, k):
    from partitura.musicanalysis import performance_codec as PC
    ctx = core.CURRENT
    args = bound(_orig["to_matched_score"], a, k, alias=(("part", "score"), ("ppart", "performance")))
    s_na, p_na = score_na(args["score"]), score_na(args["performance"])
    m_score, snote_ids = ret
    for f in ("onset", "duration", "pitch", "p_onset", "p_duration", "velocity"):
        if f not in (m_score.dtype.names or ()):
            emit("table-column-missing", f"to_matched_score: no column {f}", None)
            return
    check_table(ctx, s_na, p_na, args["alignment"], m_score, snote_ids, "to_matched_score")


def post_gmn(ret, token, a, k):
    ctx = core.CURRENT
    args = bound(_orig["get_matched_notes"], a, k)
    s_na, p_na, alignment = args["spart_note_array"], args["ppart_note_array"], args["alignment"]
    pairs, unique, s_index, p_index = R.expected_pairs(s_na["id"], p_na["id"], alignment)
    if not unique:
        ctx.ambiguous()
        return
    ctx.check()
    exp = collections.Counter((s_index[s][0], p_index[p][0]) for s, p in pairs)
    arr = np.asarray(ret)
    got_list = [tuple(int(v) for v in r) for r in arr.tolist()] if arr.ndim == 2 else []
    if arr.ndim != 2 and arr.size:
        emit("matched-index-table-malformed", f"get_matched_notes returned shape {arr.shape}", None)
        return
    got = collections.Counter(got_list)
    if got != exp:
        missing = sorted((exp - got).elements())[:5]
        extra = sorted((got - exp).elements())[:5]
        key = "matched-indices-miss-a-match" if missing else "matched-indices-contain-a-pair-that-is-not-a-match-on-both-sides"
        emit(key, f"get_matched_notes: missing index pairs {missing}, unexpected {extra} (of {sum(exp.values())} expected)",
             arrays_witness(s_na, p_na, alignment) if _WITNESS is None else {"missing": missing, "unexpected": extra})
        return
    keys = [onset_key(s_na, i) for i, _ in got_list]
    if not R.order_ok(keys):
        ctx.ambiguous()
        ctx.extra["get_matched_notes_rows_in_alignment_order_not_score_order"] += 1


# ------------------------------------------------------------------ time maps
def post_tm(ret, token, a, k):
    ctx = core.CURRENT
    args = bound(_orig["get_time_maps_from_alignment"], a, k)
    p_na, s_na = score_na(args["ppart_or_note_array"]), score_na(args["spart_or_note_array"])
    alignment, ro = args["alignment"], bool(args["remove_ornaments"])
    pairs, unique, s_index, p_index = R.expected_pairs(s_na["id"], p_na["id"], alignment)
    if not unique or not pairs:
        ctx.ambiguous()
        return
    idx = [(s_index[s][0], p_index[p][0]) for s, p in pairs]
    knots, dropped = R.timemap_knots(s_na["onset_beat"], s_na["duration_beat"], p_na["onset_sec"], idx, ro)
    if not knots:
        ctx.ambiguous()
        return
    p2s, s2p = ret
    U = [float(u) for u, _ in knots]
    M = [float(m) for _, m in knots]
    tol_p = tol_for(max(abs(x) for x in M))
    tol_b = tol_for(max(abs(x) for x in U))
    ctx.state(f"timemap:ro={ro}:dropped={dropped > 0}:knots={min(len(knots), 3)}")
    w = {"remove_ornaments": ro, "knots": [[u, m] for u, m in list(zip(U, M))[:12]], "onsets_with_only_ornaments": dropped}
    if _WITNESS is None:
        w.update(arrays_witness(s_na, p_na, alignment))
    try:
        got_p = np.atleast_1d(np.asarray(s2p(np.array(U)), dtype=float))
        got_s = np.atleast_1d(np.asarray(p2s(np.array(M)), dtype=float))
    except Exception as e:
        emit("time-map-cannot-be-evaluated-at-its-knots", f"{type(e).__name__}: {e}", w)
        return
    ctx.check(2)
    if not (np.all(np.isfinite(got_p)) and np.all(np.isfinite(got_s))):
        key = "time-map-not-finite-when-an-onset-has-only-ornaments" if (dropped and ro) else "time-map-not-finite-at-a-knot"
        emit(key, f"score->performance {got_p[:6].tolist()} performance->score {got_s[:6].tolist()} at the knots", w)
        return
    for i, (g, m) in enumerate(zip(got_p, M)):
        if abs(g - m) > tol_p:
            key = "score-to-performance-map-misses-a-knot"
            emit(key, f"map(score onset {U[i]}) = {g}, mean performed onset of the notes written there is {m}", dict(w, knot=i))
            break
    increasing = all(b > a_ for a_, b in zip(M, M[1:]))
    if not increasing:
        ctx.ambiguous()                      # performance->score is not a function of the knots
    else:
        for i, (g, u) in enumerate(zip(got_s, U)):
            slopes = [abs((U[j + 1] - U[j]) / (M[j + 1] - M[j])) for j in (i - 1, i) if 0 <= j < len(U) - 1]
            allowed = tol_b + (max(slopes) if slopes else 0.0) * 1e-6 * max(1.0, abs(M[i]))
            if abs(g - u) > allowed:
                key = "performance-to-score-map-misses-a-knot"
                emit(key, f"map(mean performed onset {M[i]}) = {g}, the notes are written at score onset {u}", dict(w, knot=i))
                break
    if len(knots) > 1:
        mids_u = np.array([(x + y) / 2 for x, y in zip(U, U[1:])])
        try:
            mp = np.atleast_1d(np.asarray(s2p(mids_u), dtype=float))
        except Exception as e:
            emit("time-map-cannot-be-evaluated-between-knots", f"{type(e).__name__}: {e}", w)
            return
        ctx.check()
        for i, g in enumerate(mp):
            lo, hi = min(M[i], M[i + 1]), max(M[i], M[i + 1])
            if not (lo - tol_p <= g <= hi + tol_p):
                emit("score-to-performance-map-leaves-the-interval-between-knots",
                     f"map({mids_u[i]}) = {g} outside [{lo}, {hi}]", dict(w, knot=i))
                break
        if increasing:
            mids_m = np.array([(x + y) / 2 for x, y in zip(M, M[1:])])
            ms = np.atleast_1d(np.asarray(p2s(mids_m), dtype=float))
            ctx.check()
            for i, g in enumerate(ms):
                if not (U[i] - tol_b <= g <= U[i + 1] + tol_b):
                    emit("performance-to-score-map-leaves-the-interval-between-knots",
                         f"map({mids_m[i]}) = {g} outside [{U[i]}, {U[i + 1]}]", dict(w, knot=i))
                    break


# ------------------------------------------------------------------ codec
def post_enc(ret, token, a, k):
    ctx = core.CURRENT
    args = bound(_orig["encode_performance"], a, k, alias=(("part", "score"), ("ppart", "performance")))
    norm, method = args["beat_normalization"], args["tempo_smooth"]
    params, snote_ids = ret[0], [str(x) for x in ret[1]]
    if norm not in R.PARAM_NAMES:
        return
    names = params.dtype.names or ()
    ctx.check()
    missing = [f for f in R.BASE_FIELDS + R.PARAM_NAMES[norm] if f not in names]
    if missing:
        emit("encoded-parameters-lack-a-column", f"{norm}: columns {missing} missing from {names}", None)
        return
    if len(params) != len(snote_ids):
        emit("encoded-parameters-and-ids-differ-in-length", f"{len(params)} rows, {len(snote_ids)} ids", None)
        return
    s_na, p_na = score_na(args["score"]), score_na(args["performance"])
    pairs, unique, s_index, p_index = R.expected_pairs(s_na["id"], p_na["id"], args["alignment"])
    if not unique:
        ctx.ambiguous()
        return
    exp = dict(pairs)
    if collections.Counter(snote_ids) != collections.Counter(list(exp)):
        emit("encoded-notes-are-not-the-matched-notes", f"{len(snote_ids)} encoded, {len(exp)} matched on both sides",
             {"missing": sorted(set(exp) - set(snote_ids))[:5], "unexpected": sorted(set(snote_ids) - set(exp))[:5]})
        return
    truth, s_info = {}, {}
    scale = 1.0
    for sid in snote_ids:
        si, pi = s_index[sid][0], p_index[exp[sid]][0]
        on, dur = float(p_na["onset_sec"][pi]), float(p_na["duration_sec"][pi])
        scale = max(scale, abs(on) + abs(dur))
        truth[sid] = (on, dur if dur >= R.FLOOR else None, int(p_na["velocity"][pi]))
        s_info[sid] = {"key": onset_key(s_na, si), "onset": float(s_na["onset_beat"][si]), "dur": float(s_na["duration_beat"][si])}
    if isinstance(method, str) and method in METHODS:
        _REG[id(params)] = {"params": params, "truth": truth, "s_info": s_info, "norm": norm, "method": method,
                            "ids": snote_ids, "tol": tol_for(scale), "decoded": 0}
        while len(_REG) > 16:
            _REG.popitem(last=False)


def pre_dec(*a, **k):
    args = bound(_orig["decode_performance"], a, k, alias=(("part", "score"),))
    rec = _REG.get(id(args["performance_array"]))
    if rec is None or rec["params"] is not args["performance_array"]:
        core.CURRENT.extra["decode_of_parameters_not_from_encode"] += 1
        return None
    if args["beat_normalization"] != rec["norm"] or args["snote_ids"] is None or [str(x) for x in args["snote_ids"]] != rec["ids"]:
        core.CURRENT.extra["decode_with_other_options_than_encode"] += 1
        return None
    return rec, args


def diagnose(rec, fails):
    """Partition the failures by mechanism -> {key: [fail, ...]}"""
    params, norm, s_info = rec["params"], rec["norm"], rec["s_info"]
    out = collections.OrderedDict()
    nonfinite = [f for f in params.dtype.names if not np.all(np.isfinite(params[f]))]
    if nonfinite:
        if norm == "beat_period_standardized" and not np.all(np.asarray(params["beat_period_std"]) > 0):
            out["standardized-normalisation-divides-by-zero-spread-of-beat-periods"] = fails
        else:
            out["encoded-parameter-not-finite:" + nonfinite[0]] = fails
        return out
    keycount = collections.Counter(v["key"] for v in s_info.values())
    # three classes of failing notes: members of a group of matched notes with equal (score onset, pitch); grace notes
    # whose duration is off; everything else.  Group members are named as that mechanism only when nothing else fails
    # (a general fault of the codec hits them too).
    def in_group(f):
        return f[1] in s_info and keycount[s_info[f[1]]["key"]] > 1

    def grace_dur(f):
        return f[1] in s_info and f[0] == "duration" and not s_info[f[1]]["dur"] > 0
    # a grace note whose duration decodes wrongly is the grace-note mechanism first (it also occurs inside equal-key groups,
    # e.g. a grace note repeating the pitch of its main note)
    graces = [f for f in fails if grace_dur(f)]
    grouped = [f for f in fails if in_group(f) and not grace_dur(f)]
    rest = [f for f in fails if not in_group(f) and not grace_dur(f)]
    if graces:
        out["grace-note-duration-not-reproduced"] = graces
    if grouped and not rest:
        out["notes-of-equal-score-onset-and-pitch-get-each-others-parameters"] = grouped
    else:
        rest = rest + grouped
    if rest:
        # does a decoder of the documented parameter meaning reproduce the performance from these parameters?
        ids = rec["ids"]
        rows = [{n: float(params[n][i]) for n in params.dtype.names} for i in range(len(ids))]
        try:
            ref = R.reference_decode(norm, rows, [(s_info[s]["onset"], s_info[s]["dur"]) for s in ids])
            ref_d = {s: ((r[0], r[1] if r[1] is not None else rec["truth"][s][1] or 0.0, r[2])) for s, r in zip(ids, ref)}
            truth = {s: (t[0], t[1] if (t[1] is not None and s_info[s]["dur"] > 0) else None, t[2]) for s, t in rec["truth"].items()}
            side = "decoder" if not R.roundtrip_failures(truth, ref_d, rec["tol"]) else "encoder"
        except Exception:
            side = "undetermined"
        for f in rest:
            out.setdefault(f"{f[0]}-not-reproduced:{side}", []).append(f)
    return out


def post_dec(ret, token, a, k):
    if token is None:
        return
    rec, args = token
    ctx = core.CURRENT
    ppart = ret[0] if isinstance(ret, tuple) else ret
    decoded = {}
    for n in ppart.notes:
        decoded[str(n["id"])] = (float(n["note_on"]), float(n["note_off"]) - float(n["note_on"]), int(n["velocity"]))
    rec["decoded"] += 1
    ctx.check(3 * len(rec["truth"]))
    n_floor = sum(1 for t in rec["truth"].values() if t[1] is None)
    if n_floor:
        ctx.ambiguous(n_floor)
    # onsets: the parameters are single precision, and so is the sum that rebuilds the onsets from them - but the sum is taken
    # in double precision, so a decoded onset is within a few single-precision spacings of the performed one (4e-7 relative
    # is about three spacings); durations go through 2**articulation and keep the wider tolerance
    tol = 4e-7 * max(1.0, rec["tol"] / 2e-5)
    try:
        # the timing parameter is single precision too: where a tempo curve runs far from the performance (the derivative
        # method at sparse onsets) it is seconds to minutes large, and its own spacing bounds what can be reproduced
        big = float(np.nanmax(np.abs(rec["params"]["timing"].astype(float)))) if len(rec["params"]) else 0.0
        if np.isfinite(big):
            tol = max(tol, 4e-7 * big)
    except Exception:  # noqa
        pass
    dur_tol = {sid: rec["tol"] for sid in rec["truth"]}
    if rec["norm"] == "beat_period_standardized":
        # beat period = standardized*std + mean in float32: its rounding is relative to |mean| + |standardized*std|, not to
        # the beat period itself (cancellation when a beat period is far below the mean); that much is single-precision rounding
        P = rec["params"]
        mag = np.abs(P["beat_period_mean"].astype(float)) + np.abs(P["beat_period_standardized"].astype(float) * P["beat_period_std"].astype(float))
        bp = np.maximum(np.abs(P["beat_period"].astype(float)), 1e-12)
        if np.all(np.isfinite(mag)) and len(mag):
            ons = [v["onset"] for v in rec["s_info"].values()]
            tol = tol + 2.5e-7 * float(mag.max()) * (max(ons) - min(ons))
            for i, sid in enumerate(rec["ids"]):
                d = rec["truth"][sid][1]
                if d is not None:
                    dur_tol[sid] = rec["tol"] + 2.5e-7 * float(mag[i] / bp[i]) * d
    fails = R.roundtrip_failures(rec["truth"], decoded, tol, dur_tol)
    ctx.state(f"codec:{rec['norm']}:{rec['method']}:{'fail' if fails else 'ok'}")
    if not fails:
        return
    for key, fl in diagnose(rec, fails).items():
        comp, sid, got, want = fl[0]
        info = rec["s_info"].get(sid, {})
        what = (f"{rec['norm']}/{rec['method']}: {comp} of note {sid} (score onset {info.get('onset')}, notated duration "
                f"{info.get('dur')}) decoded as {got}, performed {want if comp == 'missing' else want} "
                f"(tolerance {rec['tol']:.2e}; {len({f[1] for f in fl})} of {len(rec['truth'])} notes)")
        w = {"failing": [[f[0], f[1], None if f[2] is None else float(f[2]) if not isinstance(f[2], tuple) else list(f[2]),
                          f[3] if not isinstance(f[3], tuple) else list(f[3])] for f in fl[:6]],
             "parameters": {n: [float(x) for x in rec["params"][n][:12]] for n in rec["params"].dtype.names},
             "snote_ids": rec["ids"][:12]}
        emit(key, what, w, summarise=True)


_orig = {}


def install(ctx):
    core.set_current(ctx)
    if _hooks:
        return
    import partitura  # noqa
    from partitura.musicanalysis import performance_codec as PC
    spec = [("to_matched_score", None, safe(post_tms)), ("get_matched_notes", None, safe(post_gmn)),
            ("get_time_maps_from_alignment", None, safe(post_tm)), ("encode_performance", None, safe(post_enc)),
            ("decode_performance", pre_dec, safe(post_dec))]
    for name, pre, post in spec:
        _orig[name] = getattr(PC, name)
        h = core.Hook(PC, name, pre=pre, post=post, ctx=ctx, label=name)
        core.rebind_everywhere(h.orig, h.wrapper)
        _hooks.append(h)


def setup(ctx):
    install(ctx)


# ------------------------------------------------------------------ driver
BUCKETS = ["n4n", "n4n", "extras", "extras", "unison", "deadpan", "dangling", "late", "tiny", "hires"]


def plan(tier, seed):
    n = 960 if tier == "quick" else 12000
    items = [["gen", BUCKETS[i % len(BUCKETS)], i] for i in range(n)]
    # whole pieces (a few thousand notes, several minutes): rounding that accumulates note by note shows only there
    items += [["gen", "long", i] for i in range(3 if tier == "quick" else 24)]
    if tier == "thorough":
        items += [["fixture", f] for f in ("Chopin_op10_no3_p01.match", "mozart_k265_var1.match", "test_fuer_elise.match")]
    return items


def bucket_case(rng, bucket, tier):
    from workloads import c18_align as W
    big = tier == "thorough"
    size = rng.choice([0.5, 1, 1, 2]) * (rng.choice([1, 1, 2, 3]) if big else 1)
    if bucket == "n4n":
        return W.gen_case(rng, size, mode=rng.choice(["rubato", "rubato", "jumpy"]))
    if bucket == "extras":
        ex = {"insert": rng.choice([0, 0.1, 0.3]), "delete": rng.choice([0.05, 0.2, 0.5]), "ornament": rng.choice([0, 0.1])}
        return W.gen_case(rng, size, mode=rng.choice(["rubato", "jumpy"]), extras=ex)
    if bucket == "unison":
        return W.gen_case(rng, size, mode=rng.choice(["rubato", "jumpy"]), unison=rng.randint(0, 3), same_pitch_grace=rng.randint(0, 2),
                          extras=rng.choice([None, {"delete": 0.1, "insert": 0.1}]))
    if bucket == "deadpan":
        return W.gen_case(rng, size, mode="deadpan")
    if bucket == "dangling":
        return W.gen_case(rng, size, mode="rubato", extras={"delete": 0.15, "insert": 0.1}, dangling=rng.choice(["score", "performance", "both"]))
    if bucket == "late":
        return W.gen_case(rng, size, mode=rng.choice(["rubato", "jumpy"]), late_start=True)
    if bucket == "tiny":
        return W.gen_case(rng, 0.5, mode=rng.choice(["rubato", "jumpy"]), feats=rng.choice([[], ["chords"], ["graces"], ["pickup"]]),
                          n_measures=1, divs=rng.choice([1, 2]), extras=rng.choice([None, {"delete": 0.5}, {"delete": 1.0}]))
    if bucket == "long":
        return W.gen_case(rng, 1, mode=rng.choice(["rubato", "jumpy"]), n_measures=rng.choice([250, 400]), feats=["chords", "multivoice"],
                          extras=rng.choice([None, {"delete": 0.02, "insert": 0.02}]))
    if bucket == "hires":
        return W.gen_case(rng, size, mode=rng.choice(["rubato", "jumpy"]), divs=rng.choice([480, 960]),
                          feats=["chords", "multivoice", "tuplets", "graces", "pickup"])
    raise ValueError(bucket)


def summarise(ctx, collected, cfgs):
    """One violation per mechanism; the key gets a configuration suffix only if the failure is specific to it."""
    by_key = collections.OrderedDict()
    for key, what, w, cfg in collected:
        by_key.setdefault(key, []).append((what, w, cfg))
    all_norms = {c[0] for c in cfgs}
    all_methods = {c[1] for c in cfgs}
    for key, lst in by_key.items():
        failing = {c for _, _, c in lst}
        norms = {c[0] for c in failing}
        methods = {c[1] for c in failing}
        suffix = ""
        if not ("-not-reproduced:" in key and "grace" not in key or key.startswith("raise:")) or len(failing) == len(set(cfgs)):
            suffix = ""                   # the mechanism is already named; which configurations show it is in the witness
        elif failing == {c for c in cfgs if c[0] in norms} and norms != all_norms:
            suffix = ":" + "+".join(sorted(norms))
        elif failing == {c for c in cfgs if c[1] in methods} and methods != all_methods:
            suffix = ":" + "+".join(sorted(methods))
        elif len(failing) < len(set(cfgs)):
            suffix = ":some-configurations"
        what, w, cfg = lst[0]
        w = dict(w, failing_configurations=sorted([list(c) for c in failing]))
        ctx.violation(key + suffix, what, w)


def run_case(ctx, case, rng, bucket, label):
    global _COLLECT, _WITNESS, _CFG
    import partitura.score as S
    import partitura.performance as PF
    from partitura.musicanalysis import performance_codec as PC
    from workloads import c18_align as W
    part, truth, info = case["part"], case["truth"], case["info"]
    _WITNESS = W.compact_witness(case)
    try:
        ppart = PF.PerformedPart(notes=[dict(p) for p in case["pnotes"]], id="pp", part_name="pp")
        score_kinds = {"part": part, "score": S.Score([part], id="s")}
        s_na = part.note_array()
        p_na = ppart.note_array()
        score_kinds["array"] = s_na
        perf_kinds = {"ppart": ppart, "performance": PF.Performance(ppart, id="perf"), "array": p_na}
        # trusted base: the performance note array says what the generator wrote (else this is C14's business)
        by_pid = {str(r["id"]): r for r in p_na}
        for sid, (pid, on, dur, vel) in truth.items():
            r = by_pid.get(pid)
            if r is None or abs(float(r["onset_sec"]) - on) > 1e-6 * max(1, on) + 1e-7 or abs(float(r["duration_sec"]) - dur) > 1e-6 * max(1, on + dur) + 1e-7 \
                    or int(r["velocity"]) != vel:
                ctx.extra["performance_note_array_differs_from_generator"] += 1
                return
        if set(str(x) for x in s_na["id"]) != {r["id"] for r in case["rows"]}:
            ctx.extra["score_note_array_ids_differ_from_generator"] += 1
            return

        def al():
            return [dict(a) for a in case["alignment"]]

        dangling_perf = any(a["label"] == "match" and str(a.get("performance_id")) not in by_pid for a in case["alignment"])
        # 1. index table
        ctx.try_call(PC.get_matched_notes, s_na, p_na, al())
        # 2. matched score
        sk, pk = rng.choice(sorted(score_kinds)), rng.choice(sorted(perf_kinds))
        _CFG = ("to_matched_score", sk, pk)
        tms_ok = bool(truth)
        if not truth:
            # an alignment without a single match is not "an aligned performance" (nothing to encode); the matched-note
            # table of it is the empty table
            ctx.extra["alignments_without_matches"] += 1
        try:
            if truth:
                ctx.call(PC.to_matched_score, score_kinds[sk], perf_kinds[pk], al())
            elif not dangling_perf:
                tab, ids_ = ctx.call(PC.to_matched_score, score_kinds[sk], perf_kinds[pk], al())
                ctx.check()
                if len(tab) or len(ids_):
                    emit("table-not-empty-for-an-alignment-without-matches", f"to_matched_score returned {len(tab)} rows / {len(ids_)} ids", None)
        except core.PartituraRaised as pr:
            tms_ok = False
            if dangling_perf and isinstance(pr.exc, KeyError):
                emit("matched-table-raises-on-a-match-whose-performed-note-is-absent",
                     f"to_matched_score: KeyError {pr.exc} (matches with an unknown score id are skipped, with an unknown performance id not)",
                     {"traceback": pr.tb[-600:]})
            else:
                ctx.raised(pr, {"case": _WITNESS})
        # 3. time maps
        for ro in (True, False):
            sk2, pk2 = rng.choice(["part", "array"]), rng.choice(["ppart", "array"])
            _CFG = ("time_maps", sk2, pk2, ro)
            if truth:
                ctx.try_call(PC.get_time_maps_from_alignment, perf_kinds[pk2], score_kinds[sk2], al(), remove_ornaments=ro)
        # 4. codec, all configurations
        cfgs = [(n, m) for n in NORMS for m in METHODS]
        _COLLECT = []
        n_dec = 0
        if truth and tms_ok:
            for norm, method in cfgs:
                sk, pk = rng.choice(sorted(score_kinds)), rng.choice(sorted(perf_kinds))
                _CFG = (norm, method)
                try:
                    res = ctx.call(PC.encode_performance, score_kinds[sk], perf_kinds[pk], al(), beat_normalization=norm, tempo_smooth=method,
                                   return_u_onset_idx=rng.random() < 0.25)
                except core.PartituraRaised as pr:
                    _COLLECT.append((f"raise:{type(pr.exc).__name__}@{pr.where}", f"encode_performance raised {type(pr.exc).__name__}: {pr.exc}",
                                     {"case": _WITNESS, "traceback": pr.tb[-800:]}, _CFG))
                    continue
                params, snote_ids = res[0], res[1]
                dk = rng.choice(["part", "score"])
                try:
                    ctx.call(PC.decode_performance, score_kinds[dk], params, snote_ids=snote_ids, beat_normalization=norm,
                             return_alignment=rng.random() < 0.25)
                    n_dec += 1
                except core.PartituraRaised as pr:
                    _COLLECT.append((f"raise:{type(pr.exc).__name__}@{pr.where}", f"decode_performance raised {type(pr.exc).__name__}: {pr.exc}",
                                     {"case": _WITNESS, "traceback": pr.tb[-800:]}, _CFG))
                ctx.state(f"args:{sk}:{pk}:{dk}")
        collected, _COLLECT = _COLLECT, None
        _CFG = None
        summarise(ctx, collected, cfgs)
        nontrivial = info["matched"] >= 10 and info["chords"] >= 1
        sig = core.digest([_WITNESS["score_notes"], [[p["id"], p["midi_pitch"], p["note_on"], p["note_off"], p["velocity"]] for p in case["pnotes"]],
                           _WITNESS["alignment"]])
        ctx.case(sig, nontrivial, cls=bucket,
                 sample={"bucket": bucket, **{k: info[k] for k in ("mode", "notes", "matched", "onsets", "chords", "graces", "deleted", "inserted",
                                                                    "ornaments", "dangling", "equal_key_groups", "features", "divs")},
                         "configurations_decoded": n_dec})
        ctx.state(f"case:{bucket}:{info['mode']}:ch={info['chords'] > 0}:gr={info['graces'] > 0}:pk={info['pickup']}:"
                  f"del={info['deleted'] > 0}:ins={info['inserted'] > 0}:orn={info['ornaments'] > 0}:eq={info['equal_key_groups'] > 0}")
    finally:
        _COLLECT, _WITNESS, _CFG = None, None, None
        _REG.clear()


def run_item(ctx, item):
    install(ctx)
    kind = item[0]
    if kind == "gen":
        bucket, idx = item[1], item[2]
        rng = ctx.rng("gen", bucket, idx)
        case = bucket_case(rng, bucket, ctx.tier)
        if not case["rows"]:
            ctx.extra["empty_score_generated"] += 1
            return
        run_case(ctx, case, rng, bucket, f"{bucket}#{idx}")
    elif kind == "fixture":
        run_fixture(ctx, item[1])


def run_fixture(ctx, name):
    """Real alignments from the repository's match files (their own score part, created by the loader)."""
    global _WITNESS, _COLLECT, _CFG
    import os
    import partitura
    from partitura.musicanalysis import performance_codec as PC
    path = os.path.join(core.REPO, "tests", "data", "match", name)
    try:
        perf, alignment, score = partitura.load_match(path, create_score=True)
    except Exception as e:
        ctx.extra[f"fixture_not_loadable:{type(e).__name__}"] += 1
        return
    part, ppart = score.parts[0], perf.performedparts[0]
    _WITNESS = {"fixture": name}
    try:
        s_na, p_na = part.note_array(), ppart.note_array()

        def al():
            return [dict(a) for a in alignment]
        ctx.try_call(PC.get_matched_notes, s_na, p_na, al())
        ctx.try_call(PC.to_matched_score, part, ppart, al())
        for ro in (True, False):
            _CFG = ("time_maps", ro)
            ctx.try_call(PC.get_time_maps_from_alignment, ppart, part, al(), remove_ornaments=ro)
        cfgs = [(n, m) for n in NORMS for m in METHODS]
        _COLLECT = []
        for norm, method in cfgs:
            _CFG = (norm, method)
            ok, res = ctx.try_call(PC.encode_performance, part, ppart, al(), beat_normalization=norm, tempo_smooth=method)
            if ok:
                ctx.try_call(PC.decode_performance, part, res[0], snote_ids=res[1], beat_normalization=norm)
        collected, _COLLECT = _COLLECT, None
        # real performances are outside the generated domain (non-monotone chord means, durations under the floor):
        # observed, reported in the evidence, not judged as violations
        for key, what, w, cfg in collected:
            ctx.extra[f"fixture:{name}:{key}"] += 1
        ctx.case(["fixture", name], False, cls="fixture", sample={"fixture": name, "notes": int(len(s_na)), "performed": int(len(p_na))})
    finally:
        _COLLECT, _WITNESS, _CFG = None, None, None
        _REG.clear()
