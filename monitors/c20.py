"""C20 — exports, views and analyses never modify their argument and are repeatable.

(i) a generic deep-snapshot wrapper on every read-only entry point named by the
statement (argument snapshot before == after, same objects); (ii) a repeat-call
driver: every entry point once, twice and in pairs in both orders on the same
object, results compared; (iii) iteration checks on Score / Performance: len,
index, iter, nested and interleaved loops.
"""
import io
import os
import tempfile

import numpy as np

from vmon import core, snapshot

PROP = "C20"
RULE = ("generated scores, parts and performances x the read-only entry points of the statement (save_musicxml, save_score_midi, "
        "save_performance_midi, save_match, note/rest arrays, piano rolls, ten map getters, pretty, unfold_part_maximal/minimal, "
        "iter_unfolded_parts, estimate_spelling/voices/key, transpose), each called once, twice, and in sampled pairs in both orders; "
        "nested / interleaved / restarted iteration over Score and Performance; non-trivial = argument with >= 20 objects; distinct "
        "by (entry point, argument digest)")
ASSUMPTIONS = ["deep snapshot (vmon/snapshot.py): every attribute of every object reachable from the argument, identity-preserving; "
               "empty per-class buckets created by read-only lookups are unobservable and ignored",
               "in-place operations named by the statement are not monitored"]
MIN_HOOKS = {"snapshot-check": {"quick": 1000, "thorough": 30000}}
MIN_NONTRIVIAL = {"quick": 300, "thorough": 5000}
_installed = False
MAPS = ("time_signature_map", "key_signature_map", "clef_map", "measure_map", "measure_number_map", "metrical_position_map",
        "beat_map", "inv_beat_map", "quarter_map", "inv_quarter_map", "quarter_duration_map")


def classify_change(before, after, before_nos, after_nos, entry):
    """mechanism key for a changed argument"""
    import collections
    d = snapshot.diff(before, after, limit=8)
    added = collections.Counter(r[0] for r in after.records) - collections.Counter(r[0] for r in before.records)
    removed = collections.Counter(r[0] for r in before.records) - collections.Counter(r[0] for r in after.records)
    text = f"objects added {dict(added)} removed {dict(removed)} | " + " | ".join(d)
    if after_nos == before_nos:
        return ("segments-registered-on-argument" if added.get("Segment") else "segment-destinations-rewritten-on-argument"), text
    if "iter_idx" in text and all(("iter_idx" in x) for x in d):
        return "iteration-cursor-stored-on-container", text
    if "_number_of_staves" in text and all(("_number_of_staves" in x) for x in d):
        return "number-of-staves-cached-on-argument", text
    return f"argument-modified-by:{entry}", text


def watch(owner, name, entry, argpos=0, argname=None, ctx=None, is_property=False):
    """Install a snapshot check around `owner.name`; argpos/argname may be tuples: every named argument is watched."""
    positions = argpos if isinstance(argpos, tuple) else (argpos,)
    names = argname if isinstance(argname, tuple) else (argname,)

    def pre(*a, **k):
        tokens = []
        for pos, nm in zip(positions, names):
            arg = a[pos] if len(a) > pos else k.get(nm)
            if arg is None or isinstance(arg, (str, bytes, int, float)):
                continue
            tokens.append((nm, arg, snapshot.snap(arg), snapshot.snap(arg, drop_classes=("Segment",))))
        return tokens or None

    def post(ret, exc, token, a, k):
        if token is None or exc is not None:
            return
        c = core.CURRENT
        for nm, arg, s0, n0 in token:
            c.hook("snapshot-check")
            c.check()
            s1 = snapshot.snap(arg)
            if s1 != s0:
                n1 = snapshot.snap(arg, drop_classes=("Segment",))
                label = entry if len(positions) == 1 else f"{entry}({nm})"
                key, text = classify_change(s0, s1, n0, n1, label)
                c.violation(key, f"{label} changed its argument ({type(arg).__name__}): {text[:400]}",
                            {"entry_point": entry, "argument": type(arg).__name__, "parameter": nm})

    h = core.Hook(owner, name, pre=pre, post=post, ctx=ctx, label=entry)
    if not isinstance(owner, type):
        core.rebind_everywhere(h.orig, h.wrapper)
    return h


def install(ctx):
    global _installed
    core.set_current(ctx)
    if _installed:
        return
    _installed = True
    import partitura
    import partitura.score as S
    import partitura.performance as PF
    import partitura.utils.music as M
    import partitura.io.exportmusicxml as EX
    import partitura.io.exportmidi as EM
    import partitura.io.exportmatch as EMA
    import partitura.musicanalysis.pitch_spelling as PS
    import partitura.musicanalysis.voice_separation as VS
    import partitura.musicanalysis.key_identification as KI
    watch(EX, "save_musicxml", "save_musicxml", 0, "score_data", ctx)
    watch(EM, "save_score_midi", "save_score_midi", 0, "score_data", ctx)
    watch(EM, "save_performance_midi", "save_performance_midi", 0, "performance_data", ctx)
    watch(EMA, "save_match", "save_match", (0, 1, 2), ("alignment", "performance_data", "score_data"), ctx)
    watch(EMA, "matchfile_from_alignment", "matchfile_from_alignment", 0, "alignment", ctx)
    watch(S, "unfold_part_alignment", "unfold_part_alignment", (0, 1), ("part", "alignment"), ctx)
    watch(M, "note_array_from_part", "note_array_from_part", 0, "part", ctx)
    watch(M, "note_array_from_part_list", "note_array_from_part_list", 0, "part_list", ctx)
    watch(M, "rest_array_from_part", "rest_array_from_part", 0, "part", ctx)
    watch(M, "compute_pianoroll", "compute_pianoroll", 0, "note_info", ctx)
    watch(M, "compute_pitch_class_pianoroll", "compute_pitch_class_pianoroll", 0, "note_info", ctx)
    watch(M, "transpose", "transpose", 0, "score", ctx)
    watch(S, "unfold_part_maximal", "unfold_part_maximal", 0, "score", ctx)
    watch(S, "unfold_part_minimal", "unfold_part_minimal", 0, "score", ctx)
    watch(PS, "estimate_spelling", "estimate_spelling", 0, "note_info", ctx)
    watch(VS, "estimate_voices", "estimate_voices", 0, "note_info", ctx)
    watch(KI, "estimate_key", "estimate_key", 0, "note_info", ctx)
    watch(S.Part, "pretty", "Part.pretty", 0, None, ctx)
    watch(S.PartGroup, "pretty", "PartGroup.pretty", 0, None, ctx)
    watch(PF.PerformedPart, "note_array", "PerformedPart.note_array", 0, None, ctx)
    for m in MAPS:
        watch(S.Part, m, f"Part.{m}", 0, None, ctx)


def setup(ctx):
    install(ctx)


# ---------------------------------------------------------------- results comparison
def same_result(a, b):
    if isinstance(a, np.ndarray) and isinstance(b, np.ndarray):
        return a.dtype == b.dtype and a.shape == b.shape and a.tobytes() == b.tobytes()
    if hasattr(a, "toarray") and hasattr(b, "toarray"):
        return (a != b).nnz == 0 and a.shape == b.shape
    if isinstance(a, tuple) and isinstance(b, tuple):
        return len(a) == len(b) and all(same_result(x, y) for x, y in zip(a, b))
    return a == b


def score_entries(sc, rng):
    """(name, thunk) for a Score argument; thunks return comparable results"""
    import partitura
    import partitura.score as S
    import partitura.utils.music as M

    def xml():
        return partitura.save_musicxml(sc)

    midi_opts = dict(part_voice_assign_mode=rng.randrange(6), anacrusis_behavior=rng.choice(["shift", "pad_bar", "time_sig_change"]),
                     minimum_ppq=rng.choice([0, 480]))

    def midi():
        mf = partitura.save_score_midi(sc, out=None, **midi_opts)
        return [[(m.type, m.time, getattr(m, "note", None), getattr(m, "channel", None)) for m in tr] for tr in mf.tracks]

    def na():
        return sc.note_array(include_pitch_spelling=True, include_staff=True) if single_div(sc) else sc.parts[0].note_array()

    def pr():
        if len(sc.parts[0].notes) == 0:
            return None
        return M.compute_pianoroll(sc.parts[0], time_div=4).toarray()

    def umax():
        return fingerprint(S.unfold_part_maximal(sc))

    def umin():
        return fingerprint(S.unfold_part_minimal(sc))

    def tr():
        return fingerprint(M.transpose(sc, S.Interval(3, "M")))

    def key():
        return partitura.musicanalysis.estimate_key(sc.parts[0].note_array())

    def spell():
        return partitura.musicanalysis.estimate_spelling(sc.parts[0].note_array())

    def voices():
        return partitura.musicanalysis.estimate_voices(sc.parts[0].note_array())
    return [("save_musicxml", xml), ("save_score_midi", midi), ("note_array", na), ("compute_pianoroll", pr),
            ("unfold_part_maximal", umax), ("unfold_part_minimal", umin), ("transpose", tr), ("estimate_key", key),
            ("estimate_spelling", spell), ("estimate_voices", voices)]


def part_entries(p, rng):
    import partitura.score as S
    import partitura.utils.music as M
    pos = np.arange(p.first_point.t, p.last_point.t + 1)
    out = [("Part.pretty", lambda: p.pretty()), ("Part.note_array", lambda: p.note_array(include_metrical_position=True, include_key_signature=True)),
           ("Part.rest_array", lambda: p.rest_array(include_staff=True)),
           ("pitch_class_pianoroll", lambda: M.compute_pitch_class_pianoroll(p, time_div=2) if len(p.notes) else None),
           ("iter_unfolded_parts", lambda: [fingerprint(u) for u in S.iter_unfolded_parts(p)]),
           ("transpose-part", lambda: fingerprint(M.transpose(p, S.Interval(2, "m", "down"))))]
    for m in MAPS:
        out.append((f"Part.{m}", (lambda m=m: np.asarray(getattr(p, m)(pos), dtype=float))))
    return out


def single_div(sc):
    return all(len(p.quarter_durations()) == 1 for p in sc.parts)


def fingerprint(x):
    import partitura.score as S
    parts = x.parts if isinstance(x, S.Score) else [x]
    out = []
    for p in parts:
        rows = []
        for tp in p._points:
            for cls, objs in tp.starting_objects.items():
                for o in objs:
                    rows.append((cls.__name__, int(tp.t), int(o.end.t) if o.end is not None else None, getattr(o, "id", None),
                                 getattr(o, "step", None), getattr(o, "alter", None), getattr(o, "octave", None)))
        out.append(sorted(rows, key=repr))
    return out


def n_objects(x):
    return len(snapshot.snap(x))


# ---------------------------------------------------------------- iteration checks
def check_iteration(ctx, cont, kind):
    n = len(cont)
    items = [cont[i] for i in range(n)]
    w = {"container": kind, "length": n}
    ctx.check(5)
    got = list(cont)
    if [id(x) for x in got] != [id(x) for x in items]:
        ctx.violation("iteration-disagrees-with-index", f"{kind}: iter gives {len(got)} items, len/index give {n}", w)
        return
    pairs = [(id(a), id(b)) for a in cont for b in cont]
    exp = [(id(a), id(b)) for a in items for b in items]
    if pairs != exp:
        ctx.violation("nested-iteration-shares-cursor", f"{kind} with {n} items: nested loops visited {len(pairs)} pairs instead of {len(exp)}", w)
        return
    z = [(id(a), id(b)) for a, b in zip(cont, cont)]
    if z != [(id(a), id(a)) for a in items]:
        ctx.violation("interleaved-iteration-shares-cursor", f"{kind} with {n} items: zip(c, c) gave {len(z)} pairs", w)
        return
    it = iter(cont)
    first = next(it, None)
    again = list(cont)
    rest = list(it)
    if [id(x) for x in again] != [id(x) for x in items] or [id(x) for x in rest] != [id(x) for x in items[1:]]:
        ctx.violation("restarted-iteration-disturbs-running-iterator", f"{kind}: a second loop changed what the first iterator still yields", w)
        return
    if n and cont[-1] is not items[-1]:
        ctx.violation("negative-index-wrong", f"{kind}[-1]", w)


def plan(tier, seed):
    n = 16 * 4 if tier == "quick" else 16 * 120
    return [["score", i] for i in range(n)] + [["perf", i] for i in range(n // 2)] + [["iter", i] for i in range(n // 4)] \
        + [["match", i] for i in range(n // 2)] + [["repeat", i] for i in range(n // 2)] \
        + [["divchange", i] for i in range(n // 4)]


def run_pair_checks(ctx, entries, rng, label, arg_digest, nobj):
    # once + twice
    for name, fn in entries:
        ok, r1 = ctx.try_call(fn)
        if not ok:
            continue
        ok2, r2 = ctx.try_call(fn)
        ctx.check()
        if ok2 and not same_result(r1, r2):
            ctx.violation(f"second-call-differs:{name}", f"{name} called twice on the same {label} gave different results", {"entry_point": name})
        ctx.case([name, arg_digest], nobj >= 20, cls=name, sample={"entry_point": name, "argument": label, "objects_in_argument": nobj})
    # pairs in both orders (sampled)
    names = [e for e in entries]
    for _ in range(4 if len(names) >= 2 else 0):
        (na, fa), (nb, fb) = rng.sample(names, 2)
        ok, ra1 = ctx.try_call(fa)
        ok2, rb1 = ctx.try_call(fb)
        ok3, ra2 = ctx.try_call(fa)
        ctx.check()
        if ok and ok3 and not same_result(ra1, ra2):
            ctx.violation(f"result-changed-after-other-call:{na}", f"{na} gives another result after {nb} was called on the same {label}",
                          {"entry_point": na, "after": nb})
        ctx.state(f"{na}|{nb}")


def run_item(ctx, item):
    import partitura
    import partitura.score as S
    from workloads import gen_score
    kind = item[0]
    rng = ctx.rng(kind, item[1])
    if kind == "score":
        sc = gen_score.make_score(rng, profile="full", n_parts=rng.choice([1, 2, 2, 3]), groups=rng.random() < 0.3)
        if rng.random() < 0.4:
            p = sc.parts[0]
            ms = [m for m in p.iter_all(S.Measure)]
            if len(ms) >= 2:
                p.add(S.Repeat(), ms[0].start.t, ms[1].start.t)
                if len(ms) >= 3 and rng.random() < 0.4:
                    # a repeat sign that was never closed (a part under construction, or edited by hand)
                    p.add(S.Repeat(), ms[2].start.t)
                    ctx.extra["scores_with_an_open_repeat"] += 1
        if rng.random() < 0.3:
            # notes entered without a note value (as a part built from onsets and durations alone): what the library
            # derives for them on the fly must not be written back by a read-only call
            for p_ in sc.parts:
                for n_ in p_.iter_all(S.GenericNote, include_subclasses=True):
                    if not isinstance(n_, S.GraceNote) and rng.random() < 0.6:
                        n_.symbolic_duration = None
            ctx.extra["scores_with_notes_without_a_note_value"] += 1
        if rng.random() < 0.4:
            # configurations: musical-beat mode with user-supplied beats per signature
            for p_ in sc.parts:
                mb = {f"{ts.beats}/{ts.beat_type}": rng.choice([1, 2, 3, ts.beats]) for ts in p_.iter_all(S.TimeSignature) if rng.random() < 0.7}
                p_.use_musical_beat(mb)
        # the part was just extended by one more note (a new last time point that nothing has looked at yet); the first thing
        # asked of it is its printed form, which has to be the same after all the other read-only calls of this item
        p0 = sc.parts[0]
        last_t = int(p0.last_point.t)
        p0.add(S.Note("C", 4, id="fresh-last-note", voice=1, staff=1), last_t, last_t + max(1, int(p0.quarter_duration_map(last_t))))
        ok_pr, pretty_first = ctx.try_call(p0.pretty)
        ctx.try_call(p0.note_array)
        ctx.try_call(lambda: list(p0.iter_all(S.GenericNote, include_subclasses=True)))
        ctx.try_call(lambda: p0.time_signature_map(last_t))
        ok_pr2, pretty_last = ctx.try_call(p0.pretty)
        ctx.check()
        if ok_pr and ok_pr2 and pretty_first != pretty_last:
            a_, b_ = pretty_first.splitlines(), pretty_last.splitlines()
            i_ = next((i for i, (x, y) in enumerate(zip(a_, b_)) if x != y), min(len(a_), len(b_)))
            ctx.violation("result-changed-after-other-call:Part.pretty", "the printed form of a part just extended differs before and after taking "
                          f"its note array, its notes and a signature map (line {i_}: {a_[i_] if i_ < len(a_) else '<eof>'!r} vs "
                          f"{b_[i_] if i_ < len(b_) else '<eof>'!r})", {"entry_point": "Part.pretty", "after": "note_array, iter_all, time_signature_map"})
        nobj = n_objects(sc)
        dg = core.digest(fingerprint(sc))
        run_pair_checks(ctx, score_entries(sc, rng), rng, "score", dg, nobj)
        run_pair_checks(ctx, part_entries(sc.parts[0], rng), rng, "part", dg, nobj)
        if isinstance(sc.part_structure[0], S.PartGroup):
            ctx.try_call(sc.part_structure[0].pretty)
        check_iteration(ctx, sc, "Score")
    elif kind == "repeat":
        # analyses on bare note arrays with many simultaneous notes (ties in every sort key), each called three times:
        # a result that depends on memory addresses or on hidden state shows up as a difference between the calls
        import numpy as np
        n_ = rng.randint(8, 80)
        grid = rng.choice([1, 2, 4])
        onsets = sorted(rng.randint(0, 12 * grid) / grid for _ in range(n_))
        rows = [(o, rng.choice([0.25, 0.5, 0.5, 1.0, 2.0, 0.0]), rng.randint(36, 96), f"r{i}") for i, o in enumerate(onsets)]   # (0.0: a grace note)
        if rng.random() < 0.5:
            rng.shuffle(rows)
        na = np.array([(o, d, o, d, p, i) for o, d, p, i in rows],
                      dtype=[("onset_beat", "f4"), ("duration_beat", "f4"), ("onset_quarter", "f4"), ("duration_quarter", "f4"), ("pitch", "i4"), ("id", "U16")])
        import partitura.musicanalysis as MA
        for name, fn in (("estimate_voices", lambda: MA.estimate_voices(na)),
                         ("estimate_voices-chords", lambda: MA.estimate_voices(na, monophonic_voices=False)),
                         ("estimate_spelling", lambda: MA.estimate_spelling(na)),
                         ("estimate_key", lambda: MA.estimate_key(na))):
            outs = []
            image = na.tobytes()
            for _ in range(3):
                ok, r_ = ctx.try_call(fn)
                if not ok:
                    break
                outs.append(r_)
            ctx.check()
            if na.tobytes() != image:
                changed = [f for f in na.dtype.names if na[f].tobytes() != np.frombuffer(image, dtype=na.dtype)[f].tobytes()]
                ctx.violation(f"argument-modified-by:{name.split('-')[0]}", f"{name} changed the note array it was given (columns {changed})",
                              {"entry_point": name, "columns": changed})
                na = np.frombuffer(image, dtype=na.dtype).copy()
            ctx.check()
            if len(outs) == 3 and not (same_result(outs[0], outs[1]) and same_result(outs[0], outs[2])):
                ctx.violation(f"second-call-differs:{name.split('-')[0]}", f"{name} called three times on the same note array of {n_} rows gave different results",
                              {"entry_point": name, "rows": [list(map(float, r_[:3])) for r_ in rows[:40]]})
            ctx.case([name, item[1]], True, cls="repeat:" + name, sample={"entry_point": name, "rows": n_})
    elif kind == "match":
        # export of an alignment to a match file: the alignment, the performance and the score are all arguments
        from workloads import c08_align
        case = c08_align.make_case(rng, size=rng.choice(["tiny", "small", "small"]))
        ppart = c08_align.build_ppart(case.perf)
        from partitura.performance import Performance
        perf_arg = ppart if rng.random() < 0.6 else Performance(ppart, id="perf")
        score_arg = case.part if rng.random() < 0.6 else S.Score([case.part], id="sc")
        alignment = case.alignment
        # (ids that already look unfolded, "...-1", are taken as unfolded by the id-renaming heuristic: C08's business)
        may_unfold = not any("-1" in str(a_.get("score_id", "")) for a_ in alignment)
        opts = dict(assume_unfolded=(rng.random() < 0.7) or not may_unfold, mpq=case.perf["mpq"], ppq=case.perf["ppq"])

        def sm():
            mf = partitura.save_match(alignment, perf_arg, score_arg, out=None, **opts)
            return [str(l.matchline) for l in mf.lines] if mf is not None else None
        nobj = n_objects(score_arg)

        def na_():
            return case.part.note_array()

        def pna_():
            return ppart.note_array()
        run_pair_checks(ctx, [("save_match", sm), ("Part.note_array", na_), ("PerformedPart.note_array", pna_)], rng,
                        "alignment+performance+score", core.digest(case.perf) + str(item[1]), nobj)
        if may_unfold:
            # unfolding a part along an alignment (what save_match does for assume_unfolded=False), called directly:
            # the alignment is an argument like the part
            ctx.try_call(S.unfold_part_alignment, case.part, [dict(a_) for a_ in alignment])
    elif kind == "divchange":
        # configurations the shared generator does not make: the divisions change INSIDE a measure, at a position where an
        # object starts, inside a note, or in a silent stretch where the timeline has no time point at all
        from workloads import gen_score
        part, q, f, where, change, n_before = gen_score.make_midmeasure_divchange_part(rng)
        sc = S.Score([part], id="dc")
        no_point = part.get_point(change) is None
        nobj = n_objects(sc)
        dg = core.digest([q, f, where, change, n_before])
        ents = [e for e in score_entries(sc, rng) if e[0] in ("save_musicxml", "save_score_midi", "note_array", "unfold_part_maximal", "transpose")]
        run_pair_checks(ctx, ents, rng, "score", dg, nobj)
        pents = [e for e in part_entries(part, rng) if e[0].startswith("Part.")]
        run_pair_checks(ctx, pents, rng, "part", dg, nobj)
        ctx.extra["divisions_change_inside_measure:" + where + (":no-time-point-there" if no_point else "")] += 1
    elif kind == "perf":
        from workloads import gen_perf
        # the exporter takes a Performance, a bare PerformedPart or a list of parts; track numbers may have gaps or clash
        hostile = rng.choice([None, None, "gaps", "shared", "shuffle"])
        spec = gen_perf.make_perf_spec(rng, kind=None if hostile else rng.choice(["performance", "part", "list"]), hostile=hostile)
        arg = gen_perf.build_performance(spec)
        from partitura.performance import Performance, PerformedPart
        perf = arg if isinstance(arg, Performance) else None
        first = arg if isinstance(arg, PerformedPart) else arg[0]

        def smf():
            mf = partitura.save_performance_midi(arg, out=None)
            return [[(m.type, m.time, getattr(m, "note", None)) for m in tr] for tr in mf.tracks]
        entries = [("save_performance_midi", smf), ("PerformedPart.note_array", lambda: first.note_array())]
        if perf is not None:
            entries.append(("Performance.note_array", lambda: perf.note_array()))
        import partitura.utils.music as M
        perf = perf if perf is not None else Performance([first] if isinstance(arg, PerformedPart) else list(arg), ensure_unique_tracks=False)
        if len(perf) and len(perf[0].notes):
            def ppr():
                try:
                    return M.compute_pianoroll(perf[0], time_div=8).toarray()
                except ValueError:
                    return None          # only drum-channel notes: documented "Note array is empty"
            entries.append(("perf-pianoroll", ppr))
        nobj = n_objects(arg)
        run_pair_checks(ctx, entries, rng, type(arg).__name__, core.digest(spec), nobj)
        check_iteration(ctx, perf, "Performance")
    else:
        n = rng.randint(0, 4)
        parts = []
        for i in range(n):
            p, _ = gen_score.make_part(rng, f"P{i + 1}", profile="plain", n_measures=1)
            parts.append(p)
        if n:
            sc = S.Score(parts, id="it")
            check_iteration(ctx, sc, "Score")
            ctx.case(["iter-score", item[1], n], n >= 2, cls="iteration")
            # the same after the list of parts was edited (item assignment) and for the score that unfolding a Score returns:
            # len, indexing and iteration keep describing one list of parts
            if n >= 2 and rng.random() < 0.5:
                extra_p, _ = gen_score.make_part(rng, "PX", profile="plain", n_measures=1)
                sc[rng.randrange(n)] = extra_p
                check_iteration(ctx, sc, "Score after item assignment")
                ctx.case(["iter-score-edited", item[1], n], True, cls="iteration")
            ms_ = [m for m in parts[0].iter_all(S.Measure)]
            if ms_:
                parts[0].add(S.Repeat(), ms_[0].start.t, ms_[0].end.t)
                sc2 = S.Score(parts, id="it2")
                ok_, un = ctx.try_call(S.unfold_part_maximal, sc2)
                if ok_ and isinstance(un, S.Score):
                    check_iteration(ctx, un, "Score returned by unfold_part_maximal")
                    ctx.check()
                    if sum(len(p_.notes) for p_ in un) != sum(len(un[i_].notes) for i_ in range(len(un))):
                        ctx.violation("iteration-disagrees-with-index", "unfolded Score: notes seen by iteration and by indexing differ", {"container": "Score"})
                    ctx.case(["iter-score-unfolded", item[1], n], True, cls="iteration")
        from partitura.performance import PerformedPart, Performance
        pps = [PerformedPart([{"id": f"n{j}", "midi_pitch": 60 + j, "note_on": j, "note_off": j + 1, "velocity": 64}], id=f"pp{i}") for i in range(n or 1)
               for j in range(1)]
        perf = Performance(pps, id="it")
        check_iteration(ctx, perf, "Performance")
        ctx.case(["iter-perf", item[1], n], n >= 2, cls="iteration")
